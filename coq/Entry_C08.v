(** Request decoder for the C08 model: list of keyword indices (0..10 as in kw_index) ->
    [model type (BasicTypeKind code, -1 for void); invalid; missing; spec type (code / -1 void / -2 none)] *)
From Coq Require Import ZArith List Bool.
From PV Require Import C13Spec C13Model C08Model.
Import ListNotations.
Local Open Scope Z_scope.

Definition kw_of (z : Z) : option kw := nth_error all_kw (Z.to_nat z).
Fixpoint decode (l : list Z) : list kw :=
  match l with [] => [] | z :: l' => match kw_of z with Some k => k :: decode l' | None => decode l' end end.
Definition enc_rty (t : rty) : Z := match t with RVoid => -1 | RBasic k => code k end.
Definition b2z (b : bool) : Z := if b then 1 else 0.
Definition run (req : list Z) : list Z :=
  let l := decode req in
  let v := C08Model.run_kws l in
  [enc_rty (v_ty v); b2z (v_invalid v); b2z (v_missing v);
   match spec l with Some t => enc_rty t | None => -2 end].
