(** C05 — decision statements for the punctuator cases of Lexer::yylex_CORE and their semantics. *)
From Coq Require Import List NArith Bool.
Import ListNotations.
Local Open Scope N_scope.

Inductive stm :=
| SKind (k : N)                              (* tk->syntaxK_ = K *)
| SAdv                                       (* yyinput() *)
| SIf (c : N) (t e : list stm)               (* if (yychar_ == 'c') *)
| SIf2 (c d : N) (t e : list stm)            (* if (yychar_ == 'c' && yytext_[1] == 'd'): a look at the byte after the next, without advancing *)
| SIfDigit (t e : list stm)                  (* if (std::isdigit(yychar_)) *)
| SOut.                                      (* a call of a sub-lexer: the token is not a punctuator; the case ends here *)

Definition isdigit (b : N) : bool := N.leb 48 b && N.leb b 57.

(** state: the kind assigned so far (None: tk->setup() left it unset) and the input still ahead;
    the byte ahead of an empty input is the terminating NUL *)
Definition ahead (inp : list N) : N := match inp with b :: _ => b | [] => 0 end.

(** [exec fuel ss kind inp consumed]: kind, number of bytes consumed beyond the first, whether yyinput() was called at the NUL *)
Fixpoint exec (fuel : nat) (ss : list stm) (kind : option N) (inp : list N) (n : nat) (oob : bool) : option N * nat * bool :=
  match fuel with
  | O => (kind, n, true)
  | S f =>
      match ss with
      | [] => (kind, n, oob)
      | SKind k :: r => exec f r (Some k) inp n oob
      | SAdv :: r => match inp with
                     | _ :: inp' => exec f r kind inp' (S n) oob
                     | [] => exec f r kind [] n true           (* yyinput() at the NUL: a read past the buffer *)
                     end
      | SIf c t e :: r => exec f ((if N.eqb (ahead inp) c then t else e) ++ r) kind inp n oob
      | SIf2 c d t e :: r => exec f ((if N.eqb (ahead inp) c && N.eqb (ahead (tl inp)) d then t else e) ++ r) kind inp n oob
      | SIfDigit t e :: r => exec f ((if isdigit (ahead inp) then t else e) ++ r) kind inp n oob
      | SOut :: _ => (None, n, oob)
      end
  end.

Fixpoint ssize (s : stm) : nat :=
  match s with
  | SIf _ t e | SIf2 _ _ t e | SIfDigit t e => S (list_sum (map ssize t) + list_sum (map ssize e))
  | _ => 1%nat
  end.
Definition size (ss : list stm) : nat := S (list_sum (map ssize ss)).

Fixpoint find_case (c : N) (cases : list (N * list stm)) : option (list stm) :=
  match cases with [] => None | (c', ss) :: r => if N.eqb c c' then Some ss else find_case c r end.

(** lexing one punctuator that starts with byte [c], the input after it being [rest] *)
Definition lex_punct (cases : list (N * list stm)) (c : N) (rest : list N) : option (option N * nat * bool) :=
  match find_case c cases with
  | Some ss => Some (exec (size ss) ss None rest 0%nat false)
  | None => None
  end.
