# C02 — Semantic analysis is total, memory-safe and leaves no dangling results.
import json, os, re, sys
from lib import pv
sys.path.insert(0, os.path.join(pv.ROOT, "gen"))
import corpus, mutate, tdprog

OPTS = ["2:1:200000:0:2", "2:1:3fffff:1:0", "1:1:200001:0:1"]
KEYWORDS = set(("auto break case char const continue default do double else enum extern float for goto if inline int long register restrict return short signed sizeof static struct switch "
                "typedef union unsigned void volatile while _Alignas _Alignof _Atomic _Bool _Complex _Generic _Noreturn _Static_assert _Thread_local __attribute__ __extension__ __asm__ __typeof__ typeof asm").split())


def hexof(b):
    return b.hex() if b else "-"


def cyclic_programs(rng, n):
    """typedef graphs with cycles / undefined names, flat file scope -> (text, env for the model, [(name, type code)])"""
    out = []
    for _ in range(n):
        k = rng.randint(1, 6)
        names = ["N%d" % i for i in range(k)]
        env, lines = [], []
        for i, nm in enumerate(names):
            r = rng.random()
            tgt = rng.choice(names + ["U9"]) if r < 0.8 else None
            if tgt is None:
                base_txt, base = "int", [0, 5]
            else:
                base_txt, base = tgt, [7, (names + ["U9"]).index(tgt)]
            shape = rng.choice(["plain", "ptr", "arr", "constq", "fptr"])
            if shape == "plain":
                txt, code = "typedef %s %s;" % (base_txt, nm), base
            elif shape == "ptr":
                txt, code = "typedef %s *%s;" % (base_txt, nm), [3] + base
            elif shape == "arr":
                txt, code = "typedef %s %s[2];" % (base_txt, nm), [4] + base
            elif shape == "constq":
                txt, code = "typedef const %s %s;" % (base_txt, nm), [6, 1] + base
            else:
                other = rng.choice(names)
                txt, code = "typedef %s (*%s)(%s);" % (base_txt, nm, other), [3, 5, 1] + base + [7, names.index(other)]
            lines.append(txt); env.append((i, code))
        uses = []
        for i, nm in enumerate(names):
            lines.append("%s v%d;" % (nm, i))
        out.append(("\n".join(lines) + "\n", env, names))
    return out


def use_programs(rng, n):
    """declarations with SEVERAL declarators per declaration (typedefs and objects; plain, pointer, array, function pointer with named/unnamed
    parameters, function), an object of every typedef, and a function that uses every object in an expression fitting its shape"""
    out = []
    for _ in range(n):
        lines, objs, cnt = [], [], [0]

        def fresh(p):
            cnt[0] += 1
            return "%s%d" % (p, cnt[0])
        tds = []
        for _d in range(rng.randint(1, 4)):
            is_td = rng.random() < 0.6
            base = rng.choice(["int", "char", "double", "unsigned long"] + [t for t, sh in tds if sh == "plain"])
            ds = []
            for _k in range(rng.randint(1, 4)):
                shape = rng.choice(["plain", "ptr", "arr", "fptr", "fptr2", "fptr0"])
                nm = fresh("T" if is_td else "o")
                if shape == "plain":
                    ds.append(nm)
                elif shape == "ptr":
                    ds.append("*" + nm)
                elif shape == "arr":
                    ds.append(nm + "[4]")
                elif shape == "fptr":
                    ds.append("(*%s)(int x)" % nm)
                elif shape == "fptr2":
                    ds.append("(*%s)(int x, %s)" % (nm, rng.choice(["int y", "char", base + " *p"])))
                else:
                    ds.append("(*%s)(void)" % nm)
                if is_td:
                    tds.append((nm, shape))
                else:
                    objs.append((nm, shape))
            lines.append(("typedef " if is_td else "") + base + " " + ", ".join(ds) + ";")
        for t, sh in tds:
            o = fresh("v")
            lines.append("%s %s;" % (t, o))
            objs.append((o, sh))
        body = []
        for o, sh in objs:
            if sh == "plain":
                body.append("r = r + (int)%s;" % o)
            elif sh == "ptr":
                body.append("r = r + (int)*%s;" % o)
            elif sh == "arr":
                body.append("r = r + (int)%s[1];" % o)
            elif sh == "fptr":
                body.append("r = r + (int)%s(1);" % o)
            elif sh == "fptr2":
                body.append("r = r + (int)%s(1, 0);" % o)
            else:
                body.append("r = r + (int)%s();" % o)
        lines.append("int use(void) { int r = 0; " + " ".join(body) + " return r; }")
        out.append("\n".join(lines) + "\n")
    return out


def run(chk, only=None):
    chk.coverage["trusted_base"] = pv.TRUSTED_COMMON + [
        "hand-written model coq/C02Model.v of TypedefNameTypeResolver::resolve with its under-resolution set over flat declaration graphs (tied by correspondence on generated cyclic typedef programs: "
        "which typedefs end in the error type)",
        "NOT modelled (explored under ASan+UBSan with and without NDEBUG and in the plain build): the binder's stacks, ownership of types (keepType/dropType, discardedTys_), the type checker; "
        "the walk of harness/h_walk.cpp is what 'reachable through the semantic-model API' means here"]
    chk.assumptions = ["the walk touches: every declarator's symbol and type (in full), tag declarations with members, function/parameter/enumerator/field symbols, TypeInfo of every expression, "
                       "scopeOf + one lookup for every identifier use, declaration and resolved type of every typedef-name type"]
    res = chk.prove(["Properties_C02.v"], extra_targets=["Entry_C02.vo"])
    proof_ok = all(ok for ok, _ in res.values())
    terr = None
    quick = chk.tier == "quick"
    rng = chk.rng
    bad, bad_model = [], []
    dist = {}
    # ---- (1) the resolver model against the implementation on cyclic typedef graphs
    if not only:
        try:
            pv.build_model("C02")
            cyc = cyclic_programs(rng, 400 if quick else 5000)
            im = pv.run_impl(["tydefs %s %s" % (OPTS[0], t.encode().hex()) for t, _, _ in cyc], shards=pv.NCPU)
            mreqs, meta = [], []
            for (t, env, names), a in zip(cyc, im):
                if not a.startswith("OK"):
                    bad.append((t.encode(), "plain", OPTS[0], "cyclic-typedefs:" + (a.split()[0].lower() if a else "empty"), a[:200])); continue
                for i, nm in enumerate(names):
                    req = [len(env)]
                    for j, code in env:
                        req += [j] + code
                    req += [7, i]
                    mreqs.append(" ".join(map(str, req))); meta.append((t, nm, a))
            mo = pv.run_model("C02", mreqs, shards=pv.NCPU)
            for (t, nm, a), m in zip(meta, mo):
                # implementation: variable v<i> of type T:nm{D..}{resolved}; the resolved text contains E iff an error type is inside
                mm = re.search(r"5:v\d+@\d+=T:%s\{D[^}]*\}\{(.*?)\}(?= |$)" % nm, a)
                if not mm:
                    continue
                impl_err = "E" in re.sub(r"[A-DF-Z]\d*", "", mm.group(1))
                model_err = 2 in m and m != [-1]
                # crude: compare whether an error type occurs
                if impl_err != model_err:
                    bad_model.append((t, nm, mm.group(1), m))
            dist["cyclic_programs"] = len(cyc)
            dist["cyclic_resolutions_compared"] = len(mreqs)
        except Exception as e:
            terr = "model runner: %r" % (e,)
    # ---- (2) exploration
    snippets = corpus.test_snippets()
    tus = [t for c, t in snippets if c == 0]
    inputs = []
    if only:
        inputs = [only]
    else:
        inputs += [t.encode("utf-8", "replace") for t in tus]
        for t in rng.sample(tus, 200 if quick else len(tus)):
            for m in mutate.mutants(rng, t, 3 if quick else 10):
                inputs.append(m.encode("utf-8", "replace"))
        import random
        for i in range(300 if quick else 5000):
            p = tdprog.Prog(random.Random(rng.getrandbits(48)))
            p.allow_late = True
            p.generate()
            inputs.append(p.text.encode())
        for t, _, _ in cyclic_programs(rng, 200 if quick else 3000):
            inputs.append(t.encode())
        for t in use_programs(rng, 300 if quick else 5000):
            inputs.append(t.encode())
        for _ in range(100 if quick else 1000):
            inputs.append("\n".join(rng.choice(tus) for _ in range(rng.randint(2, 5))).encode("utf-8", "replace"))
        import declgen
        for u in declgen.units(rng, 500 if quick else 10000):
            inputs.append(u.encode())
        inputs += [s.encode() for s in [
            "typedef T T; T x;", "typedef A B; typedef B A; A x; B *y;", "void f(T x);", "void f(int);", "void f(int, double, T);", "void (*p)(int);", "typedef int T; void f(T);",
            "void g(void (*cb)(int, T), int (*)[3]);", "void f(void){ typedef T1 *T1; T1 v; }", "struct s { struct s x; } v;", "struct a { struct b y; }; struct b { struct a x; }; struct a v;",
            "struct s; struct s *p; struct s { int a; }; int f(void){ return p->a; }", "enum e; enum e x;", "union u { struct { int a; }; int b; } w; int f(void){ return w.a; }",
            "int *a; typedef int T; T *b; int h(void){ return a == b; }", "T x = y;", "int f(x, y) int x; { return x + y; }", "int f(); int f(a) T a; { return a; }", "x;", "f(){}", "int a[]; int a[3];",
            "struct { int a; } x, y; int f(void){ return x.a + y.b; }", "typedef struct s T; struct s { T *next; }; T v;", "int f(void){ return sizeof(T) + sizeof(struct q) + (U)1; }",
            "void f(void){ goto l; l: ; { int l; } }", "int f(void){ return ({ int y = 1; y; }); }", "_Static_assert(1, \"x\"); _Alignas(8) int z; _Thread_local int t;",
            "void f(enum { E } e);", "void f(struct { int m; } e);", "struct S { int x, : 3; };", "typedef int T; struct A { struct { void (*cb)(T x); }; };",
            "int a __attribute__((aligned(sizeof(int*)))), b;", "int h(p) struct R { int a; } p; { return p.a; }", "int x = sizeof(struct { int a; });", "void f(int (*p)(struct Q { int z; } w), int k);",
            "int f(int n){ int a[n]; return a[0]; }", "int x = 1 ? 2 : (T)3;", "void f(void){ T * x; x = 0; }", "int f(void){ return u.v.w->x[1](2); }"]]
    flavours = ["plain", "asan", "asan-ndebug"]
    plan = []
    # the witnesses of the defects repaired so far (known_findings.json, "fixed"): first, in every flavour
    if not only:
        for e in pv.known_findings().get("fixed", []):
            w = (e.get("witness") or "").split()
            if e.get("property") == "C02" and len(w) == 3 and w[0] == "walk":
                try:
                    plan += [(fl, w[1], bytes.fromhex(w[2])) for fl in flavours]
                except ValueError:
                    pass
    for i, t in enumerate(inputs):
        if only:
            for fl in flavours:
                for o in OPTS:
                    plan.append((fl, o, t))
            continue
        o = OPTS[i % len(OPTS)]
        plan.append(("plain", o, t))
        r = rng.random()
        if r < (0.25 if quick else 0.5):
            plan.append(("asan", o, t))
        elif r < (0.5 if quick else 1.0):
            plan.append(("asan-ndebug", o, t))
    n_expl = 0
    shapes = {"ok": 0, "ok_with_syntax_errors": 0}
    for fl in flavours:
        part = [p for p in plan if p[0] == fl]
        if not part:
            continue
        ans = pv.run_impl(["walk %s %s" % (o, hexof(t)) for _, o, t in part], flavour=fl, shards=pv.NCPU, limit=10)
        n_expl += len(part)
        for (f_, o, t), a in zip(part, ans):
            if a.startswith("OK "):
                shapes["ok"] += 1
                if "SYNTAX" in a:
                    shapes["ok_with_syntax_errors"] += 1
                m = re.search(r"nulls=(\d+)", a)
                # a declaration without a type object, or a declared typedef name without its (resolved) synonym: demanded of units that parse
                # without syntax errors only (after a syntax error in the very declaration an absent result is an answer, not a fault)
                if m and int(m.group(1)) > 0 and "SYNTAX" not in a:
                    bad.append((t, fl, o, "null-type-reachable", a[:200]))
            elif a.startswith("LIMIT") or a.startswith("EXC maximum depth"):
                pass
            else:
                bad.append((t, fl, o, a.split()[0].lower() if a else "empty", a[:300]))
    dist.update(shapes)
    dist["inputs"] = len(inputs)
    dist["requests_per_flavour"] = {fl: sum(1 for p in plan if p[0] == fl) for fl in flavours}
    chk.coverage["evaluations"] = n_expl + dist.get("cyclic_resolutions_compared", 0)
    chk.coverage["distinct_nontrivial"] = len({t for t in inputs if len(t) >= 8})
    chk.coverage["rule"] = ("translation units: the %d whole-unit snippets of the repository's tests, token mutants of them, concatenations, generated typedef programs (incl. redeclaration after use), declaration-centred random units of gen/declgen.py (specifiers of every form in every position, nested declarators, bit-fields, anonymous members, tags declared in parameter lists and type names, attributes, statement expressions), the witnesses of every repaired defect, generated CYCLIC "
                            "typedef graphs with undefined names, hand-picked incomplete programs (self-referential typedefs and tags, unnamed/unknown-typed parameters, K&R, statement expressions, VLAs). "
                            "Each: parse, computeSemanticModel, then the full walk of harness/h_walk.cpp, in the plain build and a share under ASan+UBSan with/without NDEBUG; a crash, sanitizer report, timeout (20 s) "
                            "or exception is a failure, shrunk before it is reported. non-trivial = at least 8 bytes" % len(tus))
    chk.coverage["samples"] = [inputs[3].decode("utf-8", "replace")[:200], inputs[len(inputs) // 2].decode("utf-8", "replace")[:200]] if not only else [only.decode("utf-8", "replace")[:200]]
    chk.coverage["distribution"] = dist

    def cls(a):
        if a.startswith("OK "):
            m = re.search(r"nulls=(\d+)", a)
            return "null-type-reachable" if m and int(m.group(1)) > 0 else None
        if a.startswith("LIMIT") or a.startswith("EXC maximum depth"):
            return None
        return a.split()[0].lower() if a else "empty"

    def shrink(t, fl, o, c):
        def fb(sep):
            return lambda texts: [cls(a) == c for a in pv.run_impl(["walk %s %s" % (o, hexof(x)) for x in texts], flavour=fl, shards=pv.NCPU, limit=10)]
        # tokens first (identifiers, numbers, single punctuators), then bytes
        toks = re.findall(rb"[A-Za-z_$][A-Za-z0-9_$]*|[0-9][0-9A-Za-z.]*|\"[^\"\n]*\"|'[^'\n]*'|\S", t)
        if b" ".join(toks) != t and not fb(b" ")([b" ".join(toks)])[0]:
            toks = t.split()
        cur = b" ".join(pv.ddmin(toks, fb(b" "), lambda ps: b" ".join(ps)))
        if len(cur) <= 120:
            cur = b"".join(pv.ddmin([cur[i:i + 1] for i in range(len(cur))], fb(b""), lambda ps: b"".join(ps)))
        return cur
    seen = set()
    bad.sort(key=lambda x: len(x[0]))
    for t, fl, o, why, det in bad[:30]:
        try:
            if cls(det):
                t = shrink(t, fl, o, cls(det))
        except Exception as e:
            chk.notes.append("shrink failed: %r" % (e,))
        canon = re.sub(r"[A-Za-z_$][A-Za-z0-9_$]*", lambda m: m.group(0) if m.group(0) in KEYWORDS else "x", t.decode("latin-1"))
        canon = re.sub(r"\s+", " ", canon).strip()
        key = "%s:%s" % (why.split(":")[0], canon[:48])
        if key in seen or len(seen) > 12:
            continue
        seen.add(key)
        chk.report(key, {"text_hex": t.hex(), "text": t.decode("latin-1"), "flavour": fl, "options": o, "why": why, "answer": det, "count_failing": len(bad)}, found=True,
                   what="semantic analysis is not total / memory-safe on this translation unit")
    if bad_model and not bad:
        chk.report("model-correspondence", {"unchecked": "correspondence C02Model.resolve_g vs the implementation on cyclic typedef graphs", "first": str(bad_model[0])[:800], "count": len(bad_model)}, found=False)
    if terr is not None and not bad:
        chk.report("model-runner", {"unchecked": terr}, found=False)
    if not proof_ok and not bad:
        for f, (ok, out) in res.items():
            if not ok:
                chk.report("proof-" + f, {"unchecked": f + " (theorems: %s)" % ", ".join(pv.theorem_names(f)), "coq_output": out[-3000:]}, found=False)


def replay(chk, path):
    r = json.load(open(path))
    if r.get("text_hex") is not None:
        return run(chk, only=bytes.fromhex(r["text_hex"]))
    run(chk)
