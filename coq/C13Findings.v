(** C13 — known findings as data (one-to-one with the open C13 entries of known_findings.json). *)
From Coq Require Import List ZArith Bool.
From PV Require Import CxxIR C13Spec C13Model.
From PV.gen Require Import Gen_C13.
Import ListNotations.
Local Open Scope Z_scope.

(** key "conv:Long_U,LongLong_S": unsigned long with long long gives long long; on LP64 long long
    cannot represent all values of unsigned long, so 6.3.1.8 gives unsigned long long. *)
Definition conv_findings : list (bk * bk) := [(ULong, LLong); (LLong, ULong)].

Definition finding_active (ab : bk * bk) : bool :=
  match i_conv (code (fst ab)) (code (snd ab)) with
  | Some k => negb (k =? code (uac LP64 (fst ab) (snd ab)))
  | None => true
  end.
Definition conv_active := filter finding_active conv_findings.
Definition in_active (a b : bk) : bool := existsb (fun ab => bk_eqb (fst ab) a && bk_eqb (snd ab) b) conv_active.

(** what the implementation is proved to compute: 6.3.1.8, except at the active findings, where it
    is the observed answer (the signed operand's type) *)
Definition uac_eff (a b : bk) : bk := if in_active a b then LLong else uac LP64 a b.

Definition c11_binop_eff (op : bop) (a b : bk) : option bk :=
  match op with
  | Mul | Div | Add | Sub => Some (uac_eff a b)
  | Rem => if is_integer a && is_integer b then Some (uac_eff a b) else None
  | _ => c11_binop LP64 op a b
  end.

(** key "compound-assignment-type": a op= b is recorded with the type of a op b, where 6.5.16p3
    gives it the type of the left operand. *)
Definition c11_compound (op : bop) (a b : bk) : option bk :=
  match c11_binop LP64 op a b with Some _ => Some a | None => None end.
Definition compound_finding_witness : bop * bk * bk := (Mul, Char, Int).
