// unparse <cat> <opts> <hex text> -> "OK <ntokens> FULL|EARLY | E <token indices the dumper emits, in order> | U x<hex of Unparser output> | K <pre-order node kinds> | diags"
#include "tree.h"
#include "C/syntax/SyntaxDumper.h"
#include "C/parser/Unparser.h"
using namespace pvh;

namespace {
struct Recorder : SyntaxDumper {
    std::vector<unsigned> seq;
    std::unordered_map<unsigned, unsigned> byByte;
    Recorder(const SyntaxTree* t) : SyntaxDumper(t)
    {
        for (unsigned i = 1; i < t->tokenCount(); ++i) {
            auto& tk = t->tokenAt(i);
            byByte[tk.byteStart() * 4 + (tk.kind() == SyntaxKind::EndOfFile ? 1 : 0)] = i;
        }
    }
    void run(const SyntaxNode* n) { visit(n); }
    void terminal(const SyntaxToken& tk, const SyntaxNode*) override
    {
        if (tk == SyntaxToken::invalid()) return;
        auto it = byByte.find(tk.byteStart() * 4 + (tk.kind() == SyntaxKind::EndOfFile ? 1 : 0));
        seq.push_back(it == byByte.end() ? 999999 : it->second);
    }
};
struct KindLister : SyntaxVisitor {
    std::ostringstream out;
    KindLister(const SyntaxTree* t) : SyntaxVisitor(t) {}
    bool preVisit(const SyntaxNode* n) override { out << " " << (unsigned)n->kind(); return true; }
};
}

HANDLER(unparse)
{
    int cat; std::string o, h; in >> cat >> o >> h;
    if (h == "-") h = "";
    auto tree = parse(unhex(h), makeOpts(o), catOf(cat));
    std::ostringstream out;
    out << "OK " << tree->tokenCount() << " " << (tree->parseExitedEarly() ? "EARLY" : "FULL") << " | E";
    if (tree->rootNode()) {
        Recorder r(tree.get());
        r.run(tree->rootNode());
        for (auto i : r.seq) out << " " << i;
        std::ostringstream text;
        Unparser u(tree.get());
        u.unparse(tree->rootNode(), text);
        out << " | U x" << tohex(text.str());
        KindLister k(tree.get());
        k.visit(tree->rootNode());
        out << " | K" << k.out.str();
    } else out << " | U x | K";
    out << " |" << diagstr(tree.get());
    return out.str();
}
