Require Import ExtrOcamlBasic.
From PV Require Import Entry_LEX.
Extraction "model.ml" run.
