(** C06 — Expression trees respect C operator precedence and associativity. *)
From Coq Require Import List ZArith Bool Lia.
From PV Require Import CxxIR C06Model C06Spec C06Shape.
From PV.gen Require Import Gen_SyntaxKind Gen_C06.
Import ListNotations.
Local Open Scope Z_scope.

Definition FUEL := 6%nat.
Definition callz (f : nat) (args : list Z) : Z := match callf FUEL prog06 f args with Some v => v | None => -99 end.
Definition i_prec (k : Z) := callz 0 [k].
Definition i_rassoc (k : Z) := negb (callz 1 [k] =? 0).
Definition i_isnary (k : Z) := negb (callz 2 [k] =? 0).
Definition i_kindof (k : Z) := callz 3 [k].
Definition i_isassignk (k : Z) := negb (callz 4 [k] =? 0).
Definition i_isbinaryk (k : Z) := negb (callz 5 [k] =? 0).

Definition all_kinds : list Z := map (fun p => Z.of_N (snd p)) syntax_kinds.

(** The regenerated tables are C11's, over EVERY SyntaxKind: the precedence is defined (non-zero)
    exactly on the 31 operator tokens, orders them as the levels of 6.5.5-6.5.17 do, the
    right-associative ones are '?' and the assignment operators, isNAryOperatorSyntax holds exactly
    on the operators, each operator token maps to the node kind of its operation, and the
    assignment / binary node-kind predicates classify those kinds. *)
Definition table_ok : bool :=
  forallb (fun k =>
    let l := level k in
    (if l =? 0 then (i_prec k =? 0) && negb (i_isnary k) && negb (i_rassoc k)
     else (0 <? i_prec k) && i_isnary k && Bool.eqb (i_rassoc k) (match find_op k with Some r => o_right r | None => false end)
          && (i_kindof k =? node_kind k)
          && Bool.eqb (i_isassignk (i_kindof k)) (l =? 2)
          && Bool.eqb (i_isbinaryk (i_kindof k)) ((3 <? l)))
    && forallb (fun k2 => if (level k2 =? 0) || (l =? 0) then true
                          else Bool.eqb (i_prec k <? i_prec k2) (l <? level k2)) all_kinds) all_kinds
  && (i_prec (Z.of_N K_CommaToken) =? PREC_Sequencing) && (i_prec (Z.of_N K_EqualsToken) =? PREC_Assignment).

Lemma C06_table_ok : table_ok = true.
Proof. vm_compute. reflexivity. Qed.

Theorem C06_tables : forall k, In k all_kinds ->
  (level k = 0 -> i_prec k = 0 /\ i_isnary k = false) /\
  (level k <> 0 -> 0 < i_prec k /\ i_isnary k = true /\ i_kindof k = node_kind k /\
                   (i_rassoc k = true <-> (level k = 2 \/ level k = 3))) /\
  (forall k2, In k2 all_kinds -> level k <> 0 -> level k2 <> 0 -> (i_prec k < i_prec k2 <-> level k < level k2)).
Proof.
  intros k Hk. pose proof C06_table_ok as H. unfold table_ok in H.
  apply andb_true_iff in H as [H _]. apply andb_true_iff in H as [H _].
  rewrite forallb_forall in H. specialize (H k Hk). apply andb_true_iff in H as [H1 H2].
  split; [|split].
  - intros E. rewrite E in H1. cbn in H1. apply andb_true_iff in H1 as [H1 _]. apply andb_true_iff in H1 as [A B].
    split; [lia | destruct (i_isnary k); [discriminate|reflexivity]].
  - intros E. destruct (level k =? 0) eqn:E0; [lia|].
    rewrite !andb_true_iff in H1. destruct H1 as (((((A & B) & C) & D) & _) & _).
    assert (Hn : i_isnary k = true) by (destruct (i_isnary k); [reflexivity|discriminate]).
    apply eqb_prop in C.
    unfold level in *. destruct (find_op k) as [r|] eqn:Ef; [|lia].
    unfold find_op in Ef. apply find_some in Ef as [Hin _].
    assert (Hr1 : forallb (fun r => implb (o_right r) ((o_level r =? 2) || (o_level r =? 3))) optable = true) by (vm_compute; reflexivity).
    assert (Hr2 : forallb (fun r => implb ((o_level r =? 2) || (o_level r =? 3)) (o_right r)) optable = true) by (vm_compute; reflexivity).
    rewrite forallb_forall in Hr1, Hr2. specialize (Hr1 r Hin). specialize (Hr2 r Hin).
    repeat split; try lia; try exact Hn.
    + intros Hr. rewrite Hr in C. rewrite <- C in Hr1. cbn in Hr1. lia.
    + intros Hl. rewrite C. destruct (o_right r); [reflexivity|]. cbn in Hr2. lia.
  - intros k2 Hk2 E1 E2. rewrite forallb_forall in H2. specialize (H2 k2 Hk2).
    destruct (level k2 =? 0) eqn:A; [lia|]. destruct (level k =? 0) eqn:B; [lia|]. cbn in H2.
    apply eqb_prop in H2. split; intros; lia.
Qed.

(* ---------------------------------------------------------------- the climbing loop instantiated *)
Definition zk (k : N) := Z.of_N k.
(** outside the SyntaxKind values the tables are taken to be empty (a token always is a SyntaxKind value) *)
Definition in_kinds (k : Z) : bool := existsb (Z.eqb k) all_kinds.
Definition w_prec (k : Z) : Z := if in_kinds k then i_prec k else 0.
Definition w_rassoc (k : Z) : bool := if in_kinds k then i_rassoc k else false.
Definition w_isnary (k : Z) : bool := if in_kinds k then i_isnary k else false.
Definition climb_parse : list tok -> res :=
  parse_expr w_prec w_rassoc w_isnary (zk K_IntegerConstantToken) (zk K_OpenParenToken) (zk K_CloseParenToken)
             (zk K_QuestionToken) (zk K_ColonToken) PREC_Sequencing PREC_Assignment.
Definition grammar_parse : list tok -> res :=
  ref_expr (zk K_IntegerConstantToken) (zk K_OpenParenToken) (zk K_CloseParenToken) (zk K_QuestionToken) (zk K_ColonToken)
           level is_assign_op.

(** in-order token string of a tree (no token is lost, duplicated or reordered by the loop) *)
Fixpoint flatten (t : tree) : list tok :=
  match t with
  | Atom => [zk K_IntegerConstantToken]
  | Paren e => zk K_OpenParenToken :: flatten e ++ [zk K_CloseParenToken]
  | Bin op l r => flatten l ++ op :: flatten r
  | Cond c (Some m) e => flatten c ++ zk K_QuestionToken :: flatten m ++ zk K_ColonToken :: flatten e
  | Cond c None e => flatten c ++ zk K_QuestionToken :: zk K_ColonToken :: flatten e
  end.

(** Bounded agreement of the loop with the grammar — a finite check evaluated by the kernel, NOT
    the unbounded theorem (see C06_climb_is_grammar_partial in DESIGN.md): every token string of
    length <= 5 over {atom, one operator of each of six levels, '?', ':', '(', ')'} and every
    operator triple over all 31 operators. *)
Definition alphabet : list Z :=
  [zk K_IntegerConstantToken; zk K_CommaToken; zk K_EqualsToken; zk K_PlusEqualsToken; zk K_QuestionToken; zk K_ColonToken;
   zk K_BarBarToken; zk K_PlusToken; zk K_AsteriskToken; zk K_OpenParenToken; zk K_CloseParenToken].
Fixpoint strings (n : nat) : list (list Z) :=
  match n with O => [[]] | S n' => [] :: flat_map (fun s => map (fun a => a :: s) alphabet) (filter (fun s => Nat.eqb (length s) n') (strings n')) ++ strings n' end.
Fixpoint tree_eqb (a b : tree) : bool :=
  match a, b with
  | Atom, Atom => true
  | Paren x, Paren y => tree_eqb x y
  | Bin o l r, Bin o' l' r' => (o =? o') && tree_eqb l l' && tree_eqb r r'
  | Cond c (Some m) e, Cond c' (Some m') e' => tree_eqb c c' && tree_eqb m m' && tree_eqb e e'
  | Cond c None e, Cond c' None e' => tree_eqb c c' && tree_eqb e e'
  | _, _ => false
  end.
Definition res_agree (a b : res) : bool :=
  match a, b with
  | OK t r, OK t' r' => tree_eqb t t' && (Nat.eqb (length r) (length r'))
  | Fail, Fail => true
  | _, _ => false
  end.
(** the loop also accepts prefixes (it returns the rest); compare on complete parses and on the tree of accepted prefixes *)
Definition agree_on (s : list Z) : bool :=
  match climb_parse s, grammar_parse s with
  | OK t [], OK t' [] => tree_eqb t t'
  | OK _ [], _ | _, OK _ [] => false
  | Fuel, _ | _, Fuel => false
  | _, _ => true
  end.
(* ---------------------------------------------------------------- the shape of what the loop builds (unbounded) *)
Definition BIG : Z := 1000.
Lemma shape_tables_ok :
  forallb (fun k => implb (0 <? i_prec k) (i_isnary k) && (i_prec k <? BIG) &&
                    forallb (fun k2 => implb ((i_prec k =? i_prec k2) && (0 <? i_prec k)) (Bool.eqb (i_rassoc k) (i_rassoc k2))) all_kinds) all_kinds = true.
Proof. vm_compute. reflexivity. Qed.
Lemma in_kinds_In k : in_kinds k = true -> In k all_kinds.
Proof. unfold in_kinds. intros H. apply existsb_exists in H as [x [Hx E]]. apply Z.eqb_eq in E. subst. exact Hx. Qed.
Lemma w_nary : forall k, 0 < w_prec k -> w_isnary k = true.
Proof.
  intros k H. unfold w_prec, w_isnary in *. destruct (in_kinds k) eqn:E; [|lia].
  pose proof shape_tables_ok as T. rewrite forallb_forall in T. specialize (T k (in_kinds_In k E)).
  apply andb_true_iff in T as [T _]. apply andb_true_iff in T as [T _]. apply Z.ltb_lt in H. rewrite H in T. exact T.
Qed.
Lemma w_big : forall k, w_prec k < BIG.
Proof.
  intros k. unfold w_prec. destruct (in_kinds k) eqn:E; [|reflexivity].
  pose proof shape_tables_ok as T. rewrite forallb_forall in T. specialize (T k (in_kinds_In k E)).
  apply andb_true_iff in T as [T _]. apply andb_true_iff in T as [_ T]. apply Z.ltb_lt in T. exact T.
Qed.
Lemma w_same : forall k1 k2, w_prec k1 = w_prec k2 -> 0 < w_prec k1 -> w_rassoc k1 = w_rassoc k2.
Proof.
  intros k1 k2 He Hp. unfold w_prec, w_rassoc in *. destruct (in_kinds k1) eqn:E1; [|lia]. destruct (in_kinds k2) eqn:E2; [|lia].
  pose proof shape_tables_ok as T. rewrite forallb_forall in T. specialize (T k1 (in_kinds_In k1 E1)).
  apply andb_true_iff in T as [_ T]. rewrite forallb_forall in T. specialize (T k2 (in_kinds_In k2 E2)).
  apply Z.eqb_eq in He. apply Z.ltb_lt in Hp. rewrite He, Hp in T. cbn in T. apply eqb_prop in T. exact T.
Qed.

Notation shape_wf := (C06Shape.wf w_prec w_rassoc (zk K_QuestionToken) BIG).

(** For EVERY token string: whatever tree the climbing loop returns, every operator node in it has a
    left operand that binds at least as tightly as the node (strictly tighter for the right-associative
    '?' and assignment operators) and a right operand that binds strictly tighter (at least as tightly for
    those) — the grouping C11 6.5.5-6.5.17 prescribes — at every depth, inside parentheses and
    conditional operands included.  With [C03_expr_lossless] (same tokens, same order) this pins
    the tree down; the equality with the recursive-descent reference itself is still only
    kernel-evaluated on bounded families below. *)
Theorem C06_climb_shape : forall ts t rest, climb_parse ts = OK t rest -> shape_wf t.
Proof.
  intros ts t rest H. unfold climb_parse, parse_expr in H.
  destruct (C06Shape.shape w_prec w_rassoc w_isnary (zk K_IntegerConstantToken) (zk K_OpenParenToken) (zk K_CloseParenToken)
              (zk K_QuestionToken) (zk K_ColonToken) PREC_Sequencing PREC_Assignment BIG w_nary w_same w_big (3 * length ts + 3)%nat) as [_ [_ F]].
  exact (F _ _ _ H).
Qed.

Definition ops31 : list Z := map o_tok optable.
Definition triples : list (list Z) :=
  flat_map (fun a => flat_map (fun b => map (fun c =>
    let A := zk K_IntegerConstantToken in
    if a =? zk K_QuestionToken then [A; a; A; zk K_ColonToken; A; b; A; c; A]
    else if b =? zk K_QuestionToken then [A; a; A; b; A; zk K_ColonToken; A; c; A]
    else if c =? zk K_QuestionToken then [A; a; A; b; A; c; A; zk K_ColonToken; A]
    else [A; a; A; b; A; c; A]) ops31) ops31) ops31.

Lemma C06_bounded_agreement_strings : forallb agree_on (strings 5) = true.
Proof. vm_compute. reflexivity. Qed.
Lemma C06_bounded_agreement_triples : forallb agree_on triples = true.
Proof. vm_compute. reflexivity. Qed.

Example C06_nonvacuous :
  let A := zk K_IntegerConstantToken in
  climb_parse [A; zk K_PlusToken; A; zk K_AsteriskToken; A] = OK (Bin (zk K_PlusToken) Atom (Bin (zk K_AsteriskToken) Atom Atom)) [] /\
  climb_parse [A; zk K_EqualsToken; A; zk K_EqualsToken; A] = OK (Bin (zk K_EqualsToken) Atom (Bin (zk K_EqualsToken) Atom Atom)) [] /\
  climb_parse [A; zk K_MinusToken; A; zk K_MinusToken; A] = OK (Bin (zk K_MinusToken) (Bin (zk K_MinusToken) Atom Atom) Atom) [].
Proof. vm_compute. repeat split; reflexivity. Qed.

Print Assumptions C06_tables.
Print Assumptions C06_climb_shape.
Print Assumptions C06_bounded_agreement_triples.
