Require Import ExtrOcamlBasic.
From PV Require Import Entry_C19.
Extraction "model.ml" run.
