# C16 — Reported positions track the text they refer to.
import json, os, re, sys
from lib import pv

OPTS = "2:1:0"
DIR_RE = re.compile(r'^[ \t]*#[ \t]*(?:line[ \t]+)?(\d+)(?:[ \t]|$)')


def chars_of(text):
    """code points -> model characters (0 = NL, else UTF-16 width) and utf-16 offset of each code point"""
    s = text.decode("utf-8")
    cs, offs, off = [], [], 0
    for c in s:
        offs.append(off)
        w = 2 if ord(c) >= 0x10000 else 1
        cs.append(0 if c == "\n" else w)
        off += w
    return s, cs, offs


def directives(s, offs):
    """(utf-16 offset of '#', line) for each line directive, as the lexer records them; first the pseudo directive (0, 1)"""
    ds, pos = [(0, 1)], 0
    for line in s.split("\n"):
        m = DIR_RE.match(line)
        if m:
            hashpos = pos + line.index("#")
            ds.append((offs[hashpos] if hashpos < len(offs) else 0, int(m.group(1))))
        pos += len(line) + 1
    return ds


IDENTS = ["x", "y1", "été", "漢字", "\U0001d4b3z", "abc_def", "q"]


def gen_text(rng, n_lines):
    lines, in_comment = [], False
    for _ in range(n_lines):
        r = rng.random()
        if r < 0.15:
            lines.append(""); continue
        if r < 0.25:
            lines.append(rng.choice(['# %d "f%d.c"' % (rng.randint(1, 500), rng.randint(0, 9)), "#line %d" % rng.randint(1, 900),
                                     '#line %d "g.h"' % rng.randint(1, 90), "# %d" % rng.randint(2, 70)])); continue
        ind = rng.choice(["", " ", "  ", "\t", "    ", " \t "])
        parts = []
        for _ in range(rng.randint(1, 5)):
            k = rng.random()
            if k < 0.5:
                parts.append("int %s ;" % rng.choice(IDENTS))
            elif k < 0.6:
                parts.append("/* c%s */" % rng.choice(["", " é", "\n  more", "*"]))
            elif k < 0.7:
                parts.append("%s = %s \\\n + 1 ;" % (rng.choice(IDENTS), rng.choice(IDENTS)))
            elif k < 0.85:
                parts.append(rng.choice([") ;", "int + ;", "] x ;", "int int 3 ;", "@", "int (( ;"]))      # syntax errors
            else:
                parts.append('char * s = "%s" ;' % rng.choice(["a", "éé", "x y"]))
        line = ind + rng.choice([" ", "  ", ""]).join(parts)
        if rng.random() < 0.1:
            line += " // tail 漢"
        lines.append(line)
    text = "\n".join(lines)
    if rng.random() < 0.7:
        text += "\n"
    return text.encode("utf-8")


def parse_pos(ans):
    T, _, G = ans.partition(" | G")
    toks = []
    for item in T.split()[1:]:
        f = item.split(":")
        toks.append({"idx": int(f[0]), "kind": int(f[1]), "off": int(f[2]), "line": int(f[3]), "col": int(f[4]),
                     "tkline": int(f[5]), "tkcol": int(f[6]), "byte": int(f[7])})
    diags = []
    for item in G.split():
        f = item.split(":")
        diags.append((int(f[0]), int(f[1]), bytes.fromhex(f[2][1:])))
    return toks, diags


def check_text(text, ia, mo_nums):
    """compare one text's implementation answer with the model's; returns list of problems"""
    s, cs, offs = chars_of(text)
    toks, diags = parse_pos(ia)
    probs = []
    lines = s.split("\n")
    modelpos = {}
    for t, k in zip(toks, range(0, len(mo_nums), 4)):
        ml, mc, raw, elen = mo_nums[k:k + 4]
        modelpos[t["idx"]] = (ml, mc, raw)
        if (t["line"], t["col"]) != (ml, mc):
            probs.append(("token-position", t, (ml, mc)))
        if (t["tkline"], t["tkcol"]) != (raw + 1, mc) and t["kind"] != 0:
            probs.append(("token-location", t, (raw + 1, mc)))
        if raw < len(lines) and elen != len(lines[raw]):
            probs.append(("model-excerpt-length", t, (elen, len(lines[raw]))))
    for (dl, dc, snip) in diags:
        cands = [i for i, p in modelpos.items() if (p[0], p[1]) == (dl, dc)]
        if not cands:
            probs.append(("diagnostic-at-no-token", (dl, dc), None)); continue
        want = {(lines[modelpos[i][2]] + "\n" + " " * dc + "^\n").encode("utf-8") for i in cands if modelpos[i][2] < len(lines)}
        if snip not in want:
            probs.append(("diagnostic-excerpt", (dl, dc, snip), sorted(want)[:1]))
    return probs


def model_req(text, toks):
    s, cs, offs = chars_of(text)
    ds = directives(s, offs)
    return " ".join(map(str, cs)) + " -1 " + " ".join("%d %d" % d for d in ds) + " -1 " + " ".join(str(t["off"]) for t in toks)


def run(chk, only=None):
    chk.coverage["trusted_base"] = pv.TRUSTED_COMMON + [
        "hand-written model coq/C16Model.v of the line-start table (Lexer::yyinput), computePosition, searchForLineno/Column/LineDirective and the excerpt of newDiagnostic; "
        "std::upper_bound on the sorted table modelled as a linear scan; tied by comparing every token's position, every token's own location and every diagnostic's position and excerpt",
        "which lines are line directives is decided by a regular expression in checks/c16.py (the lexer's directive branch is not modelled)"]
    chk.assumptions = ["valid UTF-8 text; offsets in UTF-16 code units as the implementation documents; a directive's '#' is the first token on its line"]
    res = chk.prove(["Properties_C16.v"], extra_targets=["Entry_C16.vo"])
    proof_ok = all(ok for ok, _ in res.values())
    pv.build_model("C16")
    quick = chk.tier == "quick"
    rng = chk.rng
    texts = [b"+ x;", b"\n\n+ x;\n", b"int x;\nint + y;\n  int ) z;\n# 10 \"f.c\"\nint ( ;\n\n  \xc3\xa9 + ;\n#line 50\nq + ;\n",
             b"/* c\n c */ int \xc3\xa9\xc3\xa9;\nint + \\\n y;\nz + ;", b"# 7 \"a.c\"\n) ;\n", b"\xf0\x9d\x92\xb3 + ;\n) x;", b"int a;\r\n  ) b;\r\n"]
    for _ in range(300 if quick else 4000):
        texts.append(gen_text(rng, rng.randint(1, 14)))
    # metamorphic variants, in the property's own words (base, variant, relation)
    meta = []
    for _ in range(150 if quick else 2000):
        pre = gen_text(rng, rng.randint(0, 6)).decode("utf-8")
        if pre and not pre.endswith("\n"):
            pre += "\n"
        ind = rng.choice(["", "  ", "\t", "int é ; "])
        err = rng.choice([") ;", "+ ;", "] ;"])
        suf = rng.choice(["", "\nint z;\n", " int w ; \n) ;"])
        k = rng.randint(1, 5)
        base = pre + ind + err + suf
        meta.append((base, pre + "\n" * k + ind + err + suf, "lines", k, len(pre.split("\n")) - 1))
        meta.append((base, pre + " " * k + ind + err + suf, "cols", k, 0))
        meta.append((base, "int 漢 ;\n" * k + base, "lines", k, 0))
    if only:
        texts, meta = only, []
    alltexts = texts + [m[0].encode("utf-8") for m in meta] + [m[1].encode("utf-8") for m in meta]
    impl = pv.run_impl(["pos %s %s" % (OPTS, t.hex() if t else "-") for t in alltexts], shards=pv.NCPU)
    parsed = []
    for ia in impl:
        try:
            parsed.append(parse_pos(ia))
        except Exception:
            parsed.append(None)
    model = pv.run_model("C16", [model_req(t, p[0]) if p else "" for t, p in zip(alltexts, parsed)], shards=pv.NCPU)
    bad = []
    ntok = 0
    for t, ia, p, mo in zip(alltexts, impl, parsed, model):
        if p is None:
            bad.append((t, "crash", ia[:200])); continue
        ntok += len(p[0])
        for pr in check_text(t, ia, mo):
            bad.append((t, pr[0], pr[1:]))
    # metamorphic relations on the first diagnostic that belongs to the error token (the last error of the base text's marked line)
    bad_meta = []
    nb = len(texts)
    for i, m in enumerate(meta):
        pb, pvv = parsed[nb + i], parsed[nb + len(meta) + i]
        if not pb or not pvv or not pb[1] or not pvv[1] or len(pb[1]) != len(pvv[1]):
            continue
        # diagnostics before the insertion point are unchanged; compare the one for the marked error: the first diagnostic at or after the marked raw line
        for (bl, bc, bs), (vl, vc, vs) in zip(pb[1], pvv[1]):
            if (bl, bc) == (vl, vc):
                continue
            if m[2] == "lines" and not (vl == bl + m[3] and vc == bc):
                bad_meta.append((m, (bl, bc), (vl, vc)))
            elif m[2] == "cols" and not (vl == bl and vc == bc + m[3]):
                # only the diagnostics on the modified line move
                bad_meta.append((m, (bl, bc), (vl, vc)))
            break
    chk.coverage["evaluations"] = len(alltexts)
    chk.coverage["distinct_nontrivial"] = len({t for t in alltexts if b"\n" in t and (b"#" in t or any(c >= 0x80 for c in t))})
    chk.coverage["rule"] = ("generated texts of 1..14 lines: indentation, declarations with multi-byte identifiers (2-, 3- and 4-byte UTF-8), block and line comments, line continuations, "
                            "blank lines, four forms of line directive, syntax errors; every token's computePosition and location() and every diagnostic's line, column and excerpt compared with the model "
                            "(%d tokens); plus %d metamorphic pairs (k line breaks inserted, k blanks inserted, k lines prepended; a changed suffix is covered by the token comparison) checked on the implementation's diagnostics directly. "
                            "non-trivial = several lines with a directive or a multi-byte character" % (ntok, len(meta)))
    chk.coverage["samples"] = [alltexts[2].decode("utf-8"), alltexts[9].decode("utf-8")[:200]] if not only else [alltexts[0].decode("utf-8", "replace")]
    chk.coverage["distribution"] = {"texts": len(alltexts), "tokens": ntok, "diagnostics": sum(len(p[1]) for p in parsed if p), "metamorphic_pairs": len(meta)}
    if bad:
        bad.sort(key=lambda x: len(x[0]))
        t, why, det = bad[0]
        chk.report("position:" + why, {"request": "pos %s %s" % (OPTS, t.hex()), "text": t.decode("utf-8", "replace"), "why": why, "detail": str(det)[:600],
                                       "count_failing": len(bad), "kinds": sorted({b[1] for b in bad})}, found=True,
                   what="a reported line/column/excerpt does not identify where the token starts")
    if bad_meta:
        m, b, v = bad_meta[0]
        chk.report("relation:" + m[2], {"request": "pos %s %s" % (OPTS, m[1].encode("utf-8").hex()), "base_text": m[0], "variant_text": m[1], "relation": m[2], "k": m[3],
                                        "base_position": b, "variant_position": v, "count": len(bad_meta)}, found=True)
    if not proof_ok and not bad:
        for f, (ok, out) in res.items():
            if not ok:
                chk.report("proof-" + f, {"unchecked": f + " (theorems: %s)" % ", ".join(pv.theorem_names(f)), "coq_output": out[-3000:]}, found=False)


def replay(chk, path):
    r = json.load(open(path))
    if r.get("request"):
        t = bytes.fromhex(r["request"].split()[2])
        print("implementation:", pv.run_impl([r["request"]])[0][:1000])
        return run(chk, only=[t])
    run(chk)
