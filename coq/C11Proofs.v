From Coq Require Import List NArith Bool Arith Lia.
From PV Require Import C12Model C12Proofs C11Model.
Import ListNotations.

(** symmetry, qualifiers respected (ignoreQualifier = false): for every fuel and every pair of terms *)
Lemma compat_sym_noq : forall f v t1 t2, compat_tf f v false t1 t2 = compat_tf f v false t2 t1.
Proof.
  induction f as [|f IH]; intros v t1 t2; [reflexivity|].
  destruct t1 as [k1| | |a|a|r1 ps1|q1 u1|n1|g1], t2 as [k2| | |b|b|r2 ps2|q2 u2|n2|g2]; cbn [compat_tf]; try reflexivity;
    try apply IH; try apply N.eqb_sym.
  - (* functions *)
    rewrite (IH false r1 r2). f_equal.
    revert ps2. induction ps1 as [|x l1 IHl]; intros [|y l2]; try reflexivity. rewrite (IH v x y), IHl. reflexivity.
  - (* qualified / qualified *)
    rewrite (N.eqb_sym q1 q2), (IH v u1 u2). reflexivity.
Qed.

(** reflexivity on clean terms, qualifiers respected *)
Lemma compat_refl_noq : forall t, clean t = true -> forall f v, size t <= f -> compat_tf f v false t t = true.
Proof.
  induction t using ty_ind'; intros Hc f v Hf; cbn [clean] in Hc; try discriminate; (destruct f as [|f]; [cbn [size] in Hf; pose proof (size_pos TVoid); cbn in *; lia|]); cbn [compat_tf size] in *.
  - apply N.eqb_refl.
  - reflexivity.
  - apply IHt; [exact Hc|lia].
  - apply IHt; [exact Hc|lia].
  - apply andb_true_iff in Hc as [Hr Hps]. rewrite IHt by (try exact Hr; lia). cbn.
    assert (Hsz : forall p, In p ps -> size p <= f) by (intros p Hp; pose proof (in_size_le p ps Hp); lia).
    clear Hf. induction ps as [|p l IHl]; [reflexivity|].
    inversion H as [|? ? Hp Hl]; subst. cbn [forallb] in Hps. apply andb_true_iff in Hps as [Cp Cl].
    rewrite Hp by (try exact Cp; apply Hsz; left; reflexivity). cbn. apply IHl; [exact Hl|exact Cl|intros x Hx; apply Hsz; right; exact Hx].
  - rewrite N.eqb_refl. cbn. apply IHt; [exact Hc|lia].
  - apply N.eqb_refl.
Qed.
