(** C05 / C01 — LexModel: Lexer::yylex (yylex_CORE and every sub-lexer of C/parser/Lexer.cpp) and the token
    loop of Lexer::lex, transcribed by hand over the bytes still ahead.  The punctuator cases are NOT
    transcribed: they are the programs regenerated from the source by translate/punct.py (Gen_Punct.punct_cases),
    run by PunctDefs.exec.  The cursor step is C01Model's [trail] (yyinput_CORE).  No proofs here.

    The text is what c_str() shows: the bytes before the first NUL.  [ahead s] is yychar_ (0 at the end).
    The state of the lexer between two tokens is (bytes ahead, withinLogicalLine_); syntaxK_splitTk is not
    modelled: it is only ever set with yychar_ == 0, after which every yylex answers EndOfFile. *)
From Coq Require Import List NArith Bool Arith.
From PV Require Import C01Model PunctDefs.
From PV.gen Require Import Gen_SyntaxKind Gen_Punct.
Import ListNotations.
Local Open Scope N_scope.

(* ------------------------------------------------------------------ <cctype> in the "C" locale *)
Definition isupper (b : N) : bool := (65 <=? b) && (b <=? 90).
Definition islower (b : N) : bool := (97 <=? b) && (b <=? 122).
Definition isalpha (b : N) : bool := isupper b || islower b.
Definition isalnum (b : N) : bool := isalpha b || isdigit b.
Definition isspace (b : N) : bool := (b =? 32) || ((9 <=? b) && (b <=? 13)).
Definition isxdigit (b : N) : bool := isdigit b || ((97 <=? b) && (b <=? 102)) || ((65 <=? b) && (b <=? 70)).
Definition isoct (b : N) : bool := (48 <=? b) && (b <=? 55).
Definition isbin (b : N) : bool := (b =? 48) || (b =? 49).
Definition isalnum_ (b : N) : bool := isalnum b || (b =? 95).
Definition isidc (b : N) : bool := isalnum b || (b =? 95) || (b =? 36) || is_mb b.     (* lexIdentifier's loop test *)
Definition in2 (b c d : N) : bool := (b =? c) || (b =? d).
Definition nlspace (b : N) : bool := negb (b =? 10) && isspace b.
Definition isdot (b : N) : bool := b =? 46.

(* ------------------------------------------------------------------ yyinput *)
Fixpoint drop_nz (t : nat) (s : list N) : list N :=
  match t with
  | O => s
  | S t' => match s with [] => [] | c :: r => if c =? 0 then s else drop_nz t' r end
  end.
(** one yyinput(): over one byte, or over a lead byte and (at most) its trail bytes *)
Definition adv (s : list N) : list N :=
  match s with
  | [] => []
  | c :: r => if is_mb c then drop_nz (trail c) r else r
  end.

(** while (p(yychar_)) yyinput();   (every p used is false at the NUL) *)
Fixpoint skipw (p : N -> bool) (fuel : nat) (s : list N) : list N :=
  match fuel with
  | O => s
  | S f => if p (ahead s) then skipw p f (adv s) else s
  end.
Definition sw (p : N -> bool) (s : list N) : list N := skipw p (length s) s.

(* ------------------------------------------------------------------ numeric constants *)
(** lexIntegerSuffix(suffixCnt) *)
Fixpoint int_suffix (cnt : nat) (s : list N) : list N :=
  match cnt with
  | O => s
  | S cnt' =>
      let c := ahead s in
      if in2 c 117 85 then
        let s1 := adv s in
        if in2 (ahead s1) 108 76 then int_suffix cnt' s1 else s1
      else if c =? 108 then
        let s1 := adv s in
        let s2 := if ahead s1 =? 108 then adv s1 else s1 in
        if in2 (ahead s2) 117 85 then int_suffix cnt' s2 else s2
      else if c =? 76 then
        let s1 := adv s in
        let s2 := if ahead s1 =? 76 then adv s1 else s1 in
        if in2 (ahead s2) 117 85 then int_suffix cnt' s2 else s2
      else s
  end.

(** lexIntegerOrFloating_AtFollowOfSuffix *)
Definition finish (k : N) (s : list N) : N * list N :=
  if isalnum_ (ahead s) then (K_Error, sw isalnum_ (adv s)) else (k, s).

(** lexIntegerOrImaginaryIntegerSuffix *)
Definition int_tail (s : list N) : N * list N :=
  if in2 (ahead s) 105 106 then finish K_ImaginaryIntegerConstantToken (int_suffix 2 (adv s))
  else
    let s1 := int_suffix 2 s in
    if in2 (ahead s1) 105 106 then finish K_ImaginaryIntegerConstantToken (adv s1)
    else finish K_IntegerConstantToken s1.

Definition float_suffix (s : list N) : list N :=
  let c := ahead s in if (c =? 102) || (c =? 108) || (c =? 70) || (c =? 76) then adv s else s.
(** lexFloatingOrImaginaryFloatingSuffix *)
Definition float_tail (s : list N) : N * list N :=
  if in2 (ahead s) 105 106 then finish K_ImaginaryFloatingConstantToken (float_suffix (adv s))
  else
    let s1 := float_suffix s in
    if in2 (ahead s1) 105 106 then finish K_ImaginaryFloatingConstantToken (adv s1)
    else finish K_FloatingConstantToken s1.

Definition digit_seq (s : list N) : list N := sw isdigit s.
Definition sign (s : list N) : list N := if in2 (ahead s) 43 45 then adv s else s.
Definition exp_part (s : list N) : list N := if in2 (ahead s) 101 69 then digit_seq (sign (adv s)) else s.
Definition bin_exp_part (s : list N) : list N := if in2 (ahead s) 112 80 then digit_seq (sign (adv s)) else s.
Definition at_exponent (s : list N) : N * list N := float_tail (exp_part s).
Definition at_period (s : list N) : N * list N := at_exponent (digit_seq s).

(** the while (yychar_) loop of lexIntegerOrFloatingConstant *)
Fixpoint num_loop (fuel : nat) (s : list N) : N * list N :=
  match fuel with
  | O => int_tail s
  | S f =>
      let c := ahead s in
      if c =? 0 then int_tail s
      else if c =? 46 then at_period (adv s)
      else if in2 c 101 69 then at_exponent s
      else if negb (isdigit c) then int_tail s
      else num_loop f (adv s)
  end.

(** lexIntegerOrFloatingConstant: [c0] is the digit already consumed *)
Definition number (c0 : N) (s : list N) : N * list N :=
  let c := ahead s in
  if (c0 =? 48) && negb (c =? 0) then
    if in2 c 120 88 then
      let s1 := sw isxdigit (adv s) in
      if ahead s1 =? 46 then float_tail (bin_exp_part (sw isxdigit (adv s1)))
      else if in2 (ahead s1) 112 80 then float_tail (bin_exp_part s1)
      else int_tail s1
    else if in2 c 98 66 then int_tail (sw isbin (adv s))
    else if isoct c then
      let s1 := sw isoct (adv s) in
      let d := ahead s1 in
      if negb (isdigit d) && negb (d =? 46) && negb (in2 d 101 69) then int_tail s1
      else num_loop (length s1) s1
    else num_loop (length s) s
  else num_loop (length s) s.

(* ------------------------------------------------------------------ quoted literals, comments *)
(** lexBackslash: [s] starts at the backslash *)
Definition backslash (s : list N) : list N :=
  let s1 := adv s in
  let c := ahead s1 in
  if negb (c =? 0) && negb (isspace c) then adv s1
  else
    let s2 := sw nlspace s1 in
    if ahead s2 =? 10 then sw nlspace (adv s2) else s2.

Fixpoint until_quote (fuel : nat) (q : N) (s : list N) : list N :=
  match fuel with
  | O => s
  | S f =>
      let c := ahead s in
      if (c =? 0) || (c =? q) || (c =? 10) then s
      else if c =? 92 then until_quote f q (backslash s)
      else until_quote f q (adv s)
  end.
(** lexUntilQuote: after the opening quote *)
Definition quoted (q : N) (s : list N) : list N :=
  let s1 := until_quote (length s) q s in
  if ahead s1 =? q then adv s1 else s1.

(** lexSingleLineComment *)
Fixpoint line_comment (fuel : nat) (s : list N) : list N :=
  match fuel with
  | O => s
  | S f =>
      let c := ahead s in
      if (c =? 0) || (c =? 10) then s
      else if c =? 92 then line_comment f (backslash s)
      else line_comment f (adv s)
  end.

(** the scan for the end of a block comment: stops AT the slash of the closing pair, or at the NUL *)
Fixpoint block_loop (fuel : nat) (s : list N) : list N :=
  match fuel with
  | O => s
  | S f =>
      let c := ahead s in
      if c =? 0 then s
      else if negb (c =? 42) then block_loop f (adv s)
      else let s1 := adv s in if ahead s1 =? 47 then s1 else block_loop f s1
  end.

(** lexRawStringLiteral: [s0] is the text after the opening quote, [dl] delimLeng (None: -1), [cand] delimCandidate *)
Fixpoint raw_loop (fuel : nat) (s0 s : list N) (dl : option nat) (cand : option (list N)) : list N :=
  match fuel with
  | O => s
  | S f =>
      let c := ahead s in
      if c =? 0 then s
      else if (c =? 40) && (match dl with None => true | Some _ => false end) then
        raw_loop f s0 (adv s) (Some (length s0 - length s)%nat) cand
      else if c =? 41 then
        let s1 := adv s in
        match dl with
        | None => s1
        | Some _ => raw_loop f s0 s1 dl (Some s1)
        end
      else
        match dl with
        | None => if (c =? 92) || isspace c then s else raw_loop f s0 (adv s) dl cand
        | Some d =>
            match cand with
            | None => raw_loop f s0 (adv s) dl cand
            | Some cs =>
                let k := (length cs - length s)%nat in
                if (c =? 34) && Nat.eqb d k then s
                else raw_loop f s0 (adv s) dl (if c =? nth k s0 0 then cand else None)
            end
        end
  end.
Definition raw_string (s : list N) : list N :=
  let s1 := raw_loop (length s) s s None None in
  if ahead s1 =? 34 then adv s1 else s1.

Definition str_kind (p : N) : N :=
  if p =? 76 then K_StringLiteral_L_Token else if p =? 85 then K_StringLiteral_U_Token
  else if p =? 117 then K_StringLiteral_u_Token else if p =? 56 then K_StringLiteral_u8_Token else K_StringLiteralToken.
Definition chr_kind (p : N) : N :=
  if p =? 76 then K_CharacterConstant_L_Token else if p =? 85 then K_CharacterConstant_U_Token
  else if p =? 117 then K_CharacterConstant_u_Token else K_CharacterConstantToken.
Definition raw_kind (p : N) : N :=
  if p =? 76 then K_StringLiteral_LR_Token else if p =? 85 then K_StringLiteral_UR_Token
  else if p =? 117 then K_StringLiteral_uR_Token else if p =? 56 then K_StringLiteral_u8R_Token else K_StringLiteral_R_Token.

(* ------------------------------------------------------------------ identifiers and the default case *)
(** lexIdentifier; keyword recognition is C17's subject: the model answers IdentifierToken for every word *)
Definition ident (s : list N) : N * list N := (K_IdentifierToken, sw isidc s).

(** the default case of the switch: [c] is the byte consumed, [s2] the text after it *)
Definition word (c : N) (s2 : list N) : N * list N :=
  if (c =? 76) || (c =? 117) || (c =? 85) || (c =? 82) then
    let d := ahead s2 in
    if d =? 34 then
      (if c =? 82 then (raw_kind 0, raw_string (adv s2)) else (str_kind c, quoted 34 (adv s2)))
    else if d =? 39 then (chr_kind c, quoted 39 (adv s2))
    else if negb (c =? 82) && (d =? 82) then
      let s3 := adv s2 in
      if ahead s3 =? 34 then (raw_kind c, raw_string (adv s3)) else ident s3
    else if (c =? 117) && (d =? 56) then
      let s3 := adv s2 in
      let e := ahead s3 in
      if e =? 34 then (str_kind 56, quoted 34 (adv s3))
      else if e =? 39 then (chr_kind 56, quoted 39 (adv s3))
      else if e =? 82 then
        let s4 := adv s3 in
        if ahead s4 =? 34 then (raw_kind 56, raw_string (adv s4)) else ident s4
      else ident s3
    else ident s2
  else if isalpha c || (c =? 95) || (c =? 36) || is_mb c then ident s2
  else if isdigit c then number c s2
  else (K_Error, s2).

(* ------------------------------------------------------------------ yylex_CORE *)
(** the white-space loop; flags: 1 atStartOfLine_, 2 hasLeadingWS_, 4 joined_ *)
Fixpoint ws (fuel : nat) (s : list N) (wll : bool) (fl : N) : list N * bool * N :=
  match fuel with
  | O => (s, wll, fl)
  | S f =>
      let c := ahead s in
      if negb (c =? 0) && isspace c then
        if c =? 10 then ws f (adv s) false (N.lor (N.land fl 2) (if wll then 4 else 1))
        else ws f (adv s) wll (N.lor fl 2)
      else (s, wll, fl)
  end.

(** the case '/' '/' of the switch, from the byte after the second slash: kind and text after the comment (the new-line is not part of it) *)
Definition line_comment_at (s3 : list N) : N * list N :=
  let k := if in2 (ahead s3) 47 33 then K_SingleLineDocumentationCommentTrivia else K_SingleLineCommentTrivia in
  let s4 := if in2 (ahead s3) 47 33 then adv s3 else s3 in
  (k, line_comment (length s4) s4).

(** the case '/' '*' of the switch, from the byte after the asterisk: kind and text after the closing pair (or the end of the text) *)
Definition block_comment_at (s3 : list N) : N * list N :=
  let e := ahead s3 in
  let s4 := adv s3 in
  let closed := in2 e 42 33 && (e =? 42) && (ahead s4 =? 47) in
  let s5 := if ahead s4 =? 60 then adv s4 else s4 in
  let k := if in2 e 42 33 then
             (if closed then K_MultiLineCommentTrivia
              else if (ahead s5 =? 0) || isspace (ahead s5) then K_MultiLineDocumentationCommentTrivia
              else K_MultiLineCommentTrivia)
           else if e =? 46 then K_Keyword_ExtPSY_omission
           else K_MultiLineCommentTrivia in
  let body := if in2 e 42 33 then s5 else if e =? 46 then sw isdot s3 else s3 in
  let s6 := if closed then s4 else block_loop (length body) body in
  (k, if ahead s6 =? 0 then s6 else adv s6).

Section Core.
Variable keep : bool.          (* ParseOptions::CommentMode != Discard *)

(** result: kind, flags, text at the token's first byte, text after its last byte, withinLogicalLine_ *)
Definition R : Type := N * N * list N * list N * bool.

(** the switch of yylex_CORE on the byte [ahead s1] at which the white-space loop stopped; [rec] is `goto LexEntry' *)
Definition dispatch (rec : list N -> bool -> N -> R) (s1 : list N) (wll1 : bool) (fl1 : N) : R :=
  let c := ahead s1 in
  if c =? 0 then (K_EndOfFile, fl1, s1, s1, wll1)
  else
    let s2 := adv s1 in
    if c =? 92 then rec s2 true fl1
    else if c =? 34 then (K_StringLiteralToken, fl1, s1, quoted 34 s2, false)
    else if c =? 39 then (K_CharacterConstantToken, fl1, s1, quoted 39 s2, false)
    else if c =? 47 then
      let d := ahead s2 in
      if d =? 47 then
        let '(k, s5) := line_comment_at (adv s2) in
        if keep then (k, fl1, s1, s5, false) else rec s5 false fl1
      else if d =? 42 then
        let '(k, s7) := block_comment_at (adv s2) in
        if keep then (k, fl1, s1, s7, false) else rec s7 false fl1
      else if d =? 61 then (K_SlashEqualsToken, fl1, s1, adv s2, false)
      else (K_SlashToken, fl1, s1, s2, false)
    else
      match lex_punct punct_cases c s2 with
      | Some (Some k, n, _) => (k, fl1, s1, skipn n s2, false)
      | Some (None, n, _) => let '(k, s3) := at_period (skipn n s2) in (k, fl1, s1, s3, false)
      | None => let '(k, s3) := word c s2 in (k, fl1, s1, s3, false)
      end.

Fixpoint core (fuel : nat) (s : list N) (wll : bool) (fl : N) : R :=
  match fuel with
  | O => (K_EndOfFile, fl, s, s, wll)
  | S f =>
      let '(s1, wll1, fl1) := ws (length s) s wll fl in
      dispatch (core f) s1 wll1 fl1
  end.

(* ------------------------------------------------------------------ Lexer::lex *)
Definition Tk : Type := N * N * list N * list N.          (* kind, flags, from, to *)
Definition St : Type := list N * bool.
Definition t_kind (t : Tk) : N := let '(k, _, _, _) := t in k.
Definition t_sol (t : Tk) : bool := let '(_, fl, _, _) := t in N.testbit fl 0.
Definition t_text (t : Tk) : list N := let '(_, _, a, b) := t in firstn (length a - length b) a.
Definition fetch (st : St) : Tk * St :=
  let '(s, wll) := st in
  let '(k, fl, a, b, w) := core (S (length s)) s wll 0 in ((k, fl, a, b), (b, w)).

Fixpoint list_eqb (a b : list N) : bool :=
  match a, b with
  | [], [] => true
  | x :: a', y :: b' => (x =? y) && list_eqb a' b'
  | _, _ => false
  end.
Definition is_word (t : Tk) (w : list N) : bool := (t_kind t =? K_IdentifierToken) && list_eqb (t_text t) w.
Definition at_eof (t : Tk) : bool := t_kind t =? K_EndOfFile.
Definition is_comment (k : N) : bool :=
  (k =? K_MultiLineCommentTrivia) || (k =? K_MultiLineDocumentationCommentTrivia) || (k =? K_SingleLineCommentTrivia)
  || (k =? K_SingleLineDocumentationCommentTrivia) || (k =? K_Keyword_ExtPSY_omission).

(** while (!tk.isAtStartOfLine() && !EOF) yylex(&tk); *)
Fixpoint skip_line (fuel : nat) (t : Tk) (st : St) : Tk * St :=
  match fuel with
  | O => (t, st)
  | S f => if negb (t_sol t) && negb (at_eof t) then let '(t', st') := fetch st in skip_line f t' st' else (t, st)
  end.
(** the loop over the data of an '# expansion begin' marker *)
Fixpoint exp_data (fuel : nat) (t : Tk) (st : St) : Tk * St :=
  match fuel with
  | O => (t, st)
  | S f =>
      if negb (at_eof t) && negb (t_sol t) then
        if t_kind t =? K_TildeToken then
          let '(_, st1) := fetch st in let '(t2, st2) := fetch st1 in exp_data f t2 st2
        else if t_kind t =? K_IntegerConstantToken then
          let '(_, st1) := fetch st in let '(_, st2) := fetch st1 in let '(t3, st3) := fetch st2 in exp_data f t3 st3
        else let '(t1, st1) := fetch st in exp_data f t1 st1
      else (t, st)
  end.

Definition W_expansion : list N := [101; 120; 112; 97; 110; 115; 105; 111; 110].
Definition W_begin : list N := [98; 101; 103; 105; 110].
Definition W_end : list N := [101; 110; 100].

(** the do-while of Lexer::lex from LexEntry with [t] the current token; [acc] the tokens added so far (reversed) *)
Fixpoint drive (fuel : nat) (t : Tk) (st : St) (acc : list Tk) : list Tk :=
  match fuel with
  | O => rev acc
  | S f =>
      if t_sol t && (t_kind t =? K_HashToken) then
        let '(t1, st1) := fetch st in
        if negb (t_sol t1) && is_word t1 W_expansion then
          let '(t2, st2) := fetch st1 in
          if negb (t_sol t2) && (t_kind t2 =? K_IdentifierToken) then
            if list_eqb (t_text t2) W_begin then
              let '(_, sa) := fetch st2 in let '(_, sb) := fetch sa in let '(_, sc) := fetch sb in let '(td, sd) := fetch sc in
              let '(te, se) := exp_data f td sd in drive f te se acc
            else if list_eqb (t_text t2) W_end then
              let '(t3, st3) := fetch st2 in drive f t3 st3 acc
            else drive f t2 st2 acc
          else drive f t2 st2 acc
        else
          let '(t2, st2) := skip_line f t1 st1 in drive f t2 st2 acc
      else if is_comment (t_kind t) && negb (t_kind t =? K_Keyword_ExtPSY_omission) then
        let '(t', st') := fetch st in drive f t' st' acc
      else if at_eof t then rev (t :: acc)
      else let '(t', st') := fetch st in drive f t' st' (t :: acc)
  end.
End Core.

Fixpoint cstr (s : list N) : list N := match s with [] => [] | c :: r => if c =? 0 then [] else c :: cstr r end.

(** UTF-16 offset (offset_) of the position [target] bytes from the end, every step taken by yyinput from the start *)
Fixpoint coff (fuel : nat) (s : list N) (target : nat) (acc : nat) : nat :=
  match fuel with
  | O => acc
  | S f => if Nat.leb (length s) target then acc else coff f (adv s) target (acc + units (ahead s))%nat
  end.

(** the token vector of Lexer::lex after the marker at index 0: (kind, byteStart, byteEnd, charStart, charEnd, flags & 7).
    The Lexer starts one byte before the text with yychar_ = '\n': the text is lexed as '\n' :: text, positions shifted by one *)
Definition lex_all (keep : bool) (text : list N) : list (N * nat * nat * nat * nat * N) :=
  let s := 10 :: cstr text in
  let total := length s in
  let '(t0, st0) := fetch keep (s, false) in
  let toks := drive keep (2 * total + 4) t0 st0 [] in
  map (fun t : Tk => let '(k, fl, a, b) := t in
         let bs := (total - length a)%nat in let be := (total - length b)%nat in
         (k, (bs - 1)%nat, (be - 1)%nat, (coff total s (length a) 0 - 1)%nat, (coff total s (length b) 0 - 1)%nat, N.land fl 7)) toks.
