// resolve <opts> <hex text> -> for every IdentifierName expression in pre-order:
//   "<byte offset of the use>:<name>=<byte offset of the identifier of the declaration found | none | unknown-symbol>"
//   the declaration is scopeOf(use)->searchForDeclaration(name, OrdinaryIdentifiers)
#include "sema.h"
using namespace pvh;

namespace {
struct Collect : SyntaxVisitor {
    const SemanticModel* sema;
    std::unordered_map<const void*, unsigned> symByte;
    std::vector<const IdentifierNameSyntax*> uses;
    Collect(const SyntaxTree* t, const SemanticModel* s) : SyntaxVisitor(t), sema(s) {}
    bool preVisit(const SyntaxNode* n) override
    {
        if (n->kind() == SyntaxKind::IdentifierDeclarator) {
            auto d = static_cast<const IdentifierDeclaratorSyntax*>(n);
            auto sym = sema->declarationBy(d);
            if (sym) symByte.emplace(sym, d->identifierToken().byteStart());
        }
        else if (n->kind() == SyntaxKind::EnumeratorDeclaration) {
            auto d = static_cast<const EnumeratorDeclarationSyntax*>(n);
            auto sym = sema->enumeratorFor(d);
            if (sym) symByte.emplace(sym, d->identifierToken().byteStart());
        }
        else if (n->kind() == SyntaxKind::IdentifierName)
            uses.push_back(static_cast<const IdentifierNameSyntax*>(n));
        return true;
    }
};
}

HANDLER(resolve)
{
    std::string o, h; in >> o >> h;
    auto tree = parse(unhex(h), makeOpts(o));
    std::string syn = tree->diagnostics().empty() ? "" : " SYNTAX";
    auto c = compile(std::move(tree));
    if (!c.sema) return "NOSEMA";
    Collect col(c.tree, c.sema);
    col.visit(c.tree->rootNode());
    std::ostringstream out;
    out << "OK" << syn;
    for (auto u : col.uses) {
        auto tk = u->identifierToken();
        out << " " << tk.byteStart() << ":" << tk.valueText() << "=";
        auto scope = c.sema->scopeOf(u);
        if (!scope) { out << "noscope"; continue; }
        auto decl = scope->searchForDeclaration(tk.lexeme()->asIdentifier(), NameSpace::OrdinaryIdentifiers);
        if (!decl) { out << "none"; continue; }
        auto it = col.symByte.find(decl);
        if (it == col.symByte.end()) out << "unknown-symbol"; else out << it->second;
    }
    return out.str();
}
