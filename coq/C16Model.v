(** C16 — position arithmetic: the line-start table the lexer relays (Lexer::yyinput), and
    SyntaxTree::computePosition / searchForLineno / searchForColumn / searchForLineDirective and the
    excerpt of newDiagnostic, transcribed by hand.  A text is a list of characters; offsets are in
    UTF-16 code units as in the implementation.  No proofs here. *)
From Coq Require Import List Arith ZArith Bool.
Import ListNotations.

(** a character: a line break, or any other character with its width in UTF-16 units (1 or 2) *)
Inductive ch := NL | C (w : nat).
Definition cw (c : ch) : nat := match c with NL => 1 | C w => w end.
Fixpoint width (t : list ch) : nat := match t with [] => 0 | c :: t' => cw c + width t' end.

(** relayLineStart(offset_ + 1) whenever the character ahead is a line break *)
Fixpoint ls_from (t : list ch) (off : nat) : list nat :=
  match t with
  | [] => []
  | NL :: t' => (off + 1) :: ls_from t' (off + 1)
  | C w :: t' => ls_from t' (off + w)
  end.
Definition line_starts (t : list ch) : list nat := 0 :: ls_from t 0.

(** std::upper_bound on the (sorted) table: index of the first element greater than v *)
Fixpoint upper_bound (ls : list nat) (v : nat) : nat :=
  match ls with [] => 0 | x :: ls' => if x <=? v then S (upper_bound ls' v) else 0 end.

Definition search_lineno (ls : list nat) (off : nat) : nat := pred (upper_bound ls off).
Definition search_column (ls : list nat) (off lineno : nat) : nat :=
  if off =? 0 then 0 else off - nth lineno ls 0.

(** line directives: (offset of the '#', line number it names); the first entry is (0, 1) *)
Fixpoint lower_bound_dir (ds : list (nat * Z)) (v : nat) : nat :=
  match ds with [] => 0 | d :: ds' => if fst d <? v then S (lower_bound_dir ds' v) else 0 end.
Definition search_directive (ds : list (nat * Z)) (off : nat) : nat * Z :=
  nth (pred (lower_bound_dir ds off)) ds (0, 1%Z).

Definition compute_position (ls : list nat) (ds : list (nat * Z)) (off : nat) : Z * nat :=
  let l := search_lineno ls off in
  let c := search_column ls off l in
  let d := search_directive ds off in
  ((Z.of_nat l - (Z.of_nat (search_lineno ls (fst d)) + 1) + snd d)%Z, c).

(** the excerpt: the characters of the token's line (index range into the text, in characters) *)
Fixpoint drop_lines (t : list ch) (n : nat) {struct t} : list ch :=
  match n with
  | O => t
  | S n' => match t with
            | NL :: t' => drop_lines t' n'
            | _ :: t' => drop_lines t' n
            | [] => []
            end
  end.
Fixpoint upto_nl (t : list ch) : list ch :=
  match t with [] => [] | NL :: _ => [] | c :: t' => c :: upto_nl t' end.
Definition excerpt (t : list ch) (ls : list nat) (off : nat) : list ch :=
  upto_nl (drop_lines t (search_lineno ls off)).
