(** C12 — typedef-name resolution.  Types as immutable terms; [env] is the list of typedef
    declarations visible at a point, MOST RECENT FIRST, each with its synonymized type as written
    (it can mention only names declared before it, i.e. in the tail).  [resolve] follows
    TypedefNameTypeResolver::resolve: a typedef name is replaced by the resolution of its
    declaration's synonymized type; a qualified type whose unqualified type resolves to a qualified
    type merges the qualifiers and adopts the inner unqualified type; everything else is
    rebuilt around the resolution of its component. *)
From Coq Require Import List NArith Bool Arith.
Import ListNotations.

Inductive ty :=
| TBasic (k : N) | TVoid | TErr
| TPtr (t : ty) | TArr (t : ty) | TFun (r : ty) (ps : list ty)
| TQual (q : N) (t : ty)          (* q: bit 0 const, 1 volatile, 2 restrict, 3 _Atomic *)
| TName (n : N) | TTag (n : N).

Definition env := list (N * ty).

(** the declaration a name refers to, and the declarations visible where it was declared *)
Fixpoint find (e : env) (n : N) : option (ty * env) :=
  match e with
  | [] => None
  | (m, t) :: e' => if N.eqb n m then Some (t, e') else find e' n
  end.

Definition mkqual (q : N) (r : ty) : ty :=
  match r with TQual q' u => TQual (N.lor q q') u | _ => TQual q r end.

Fixpoint resolve (fuel : nat) (e : env) (t : ty) : option ty :=
  match fuel with
  | O => None
  | S f =>
      match t with
      | TBasic _ | TVoid | TErr | TTag _ => Some t
      | TPtr u => option_map TPtr (resolve f e u)
      | TArr u => option_map TArr (resolve f e u)
      | TFun r ps =>
          match resolve f e r with
          | None => None
          | Some r' =>
              (fix go (l : list ty) : option ty :=
                 match l with
                 | [] => Some (TFun r' [])
                 | p :: l' => match resolve f e p, go l' with
                              | Some p', Some (TFun _ ps') => Some (TFun r' (p' :: ps'))
                              | _, _ => None
                              end
                 end) ps
          end
      | TQual q u => option_map (mkqual q) (resolve f e u)
      | TName n => match find e n with
                   | Some (t', e') => resolve f e' t'
                   | None => Some TErr               (* no declaration: the error type *)
                   end
      end
  end.

(* ------------------------------------------------------------------ the specification *)
(** what a type denotes, given what each visible name denotes *)
Fixpoint assoc (d : list (N * ty)) (n : N) : option ty :=
  match d with [] => None | (m, t) :: d' => if N.eqb n m then Some t else assoc d' n end.

Fixpoint den (d : list (N * ty)) (t : ty) : ty :=
  match t with
  | TBasic _ | TVoid | TErr | TTag _ => t
  | TPtr u => TPtr (den d u)
  | TArr u => TArr (den d u)
  | TFun r ps => TFun (den d r) (map (den d) ps)
  | TQual q u => mkqual q (den d u)
  | TName n => match assoc d n with Some r => r | None => TErr end
  end.

(** the denotation of every visible typedef name, computed oldest first *)
Fixpoint denv (e : env) : list (N * ty) :=
  match e with [] => [] | (n, t) :: e' => let d := denv e' in (n, den d t) :: d end.

(** no typedef name is left *)
Fixpoint tdfree (t : ty) : bool :=
  match t with
  | TName _ => false
  | TPtr u | TArr u | TQual _ u => tdfree u
  | TFun r ps => tdfree r && forallb tdfree ps
  | _ => true
  end.

(** the qualifiers written along the chain of names from [t] *)
Fixpoint look (l : list (N * N)) (m : N) : N := match l with [] => 0%N | (k, v) :: l' => if N.eqb m k then v else look l' m end.
Fixpoint spine_quals (qe : list (N * N)) (t : ty) : N :=
  match t with TQual q u => N.lor q (spine_quals qe u) | TName m => look qe m | _ => 0%N end.
Fixpoint qenv_of (e : env) : list (N * N) :=          (* name -> qualifiers its chain accumulates *)
  match e with [] => [] | (n, t) :: e' => let qe := qenv_of e' in (n, spine_quals qe t) :: qe end.
Definition top_quals (r : ty) : N := match r with TQual q _ => q | _ => 0%N end.

Fixpoint size (t : ty) : nat :=
  match t with
  | TPtr u | TArr u | TQual _ u => S (size u)
  | TFun r ps => S (size r + list_sum (map size ps))
  | _ => 1
  end.
Fixpoint total (e : env) : nat := match e with [] => 0 | (_, t) :: e' => S (size t + total e') end.
