(** C07 — A declarator yields exactly the C type it spells. *)
From Coq Require Import List Arith Bool.
From PV Require Import C07Model C07Proofs.
Import ListNotations.

(** For every declarator of any nesting (pointers with any qualifier lists, arrays, functions with
    named, unnamed and variadic parameters whose own declarators nest again, redundant
    parentheses), in ordinary and in parameter context, over any specifier type: the binder's
    machine names the symbol as 6.7.6 does, gives it the type 6.7.6 spells (with the 6.7.6.3p7-8
    adjustment and its decay flags in parameter context), and leaves exactly the specifier type
    on the stack. *)
Theorem C07_declarator_type : forall (d : decl) (param : bool) (base : ctype) (s : stack),
  wf d -> base_ok base ->
  run_declarator param (base :: s) d = Some (fst (ctype_of param base d), snd (ctype_of param base d), base :: s).
Proof.
  intros d param base s Hwf Hb. unfold run_declarator.
  destruct (visit_spec d Hwf param base s base s (chain_base _ _) (base_ok_nonderived _ Hb)) as (S2 & E & Hc).
  rewrite E. rewrite (chain_pop base s _ (base_ok_nonderived _ Hb) Hc). reflexivity.
Qed.

(** several declarators in one declaration: each gets its own type from the same specifier type *)
Theorem C07_multi : forall (ds : list decl) (base : ctype) (s : stack),
  Forall wf ds -> base_ok base ->
  run_declarators (base :: s) ds = map (fun d => Some (ctype_of false base d)) ds.
Proof.
  induction ds as [|d ds IH]; intros base s Hw Hb; [reflexivity|]. inversion Hw; subst. cbn [run_declarators map].
  rewrite (C07_declarator_type d false base s H1 Hb). rewrite (IH base s H2 Hb).
  destruct (ctype_of false base d). reflexivity.
Qed.

(** redundant parentheses never change the type *)
Theorem C07_parens_irrelevant : forall d param base, ctype_of param base (DParen d) = ctype_of param base d.
Proof. reflexivity. Qed.

(** the independent printer: every type has a declarator spelling it, and the rule reads it back *)
Fixpoint to_decl (t : ctype) (inner : decl) : ctype * decl :=
  match t with
  | TBase n => (t, inner)
  | TPtr _ _ u => to_decl u (DPtr [] inner)
  | TArr u => to_decl u (DArr (match inner with DPtr _ _ => DParen inner | _ => inner end))
  | TFun r ps v => to_decl r (DFun (match inner with DPtr _ _ => DParen inner | _ => inner end)
                                   (map (fun p => (TBase 0, DAbstract)) ps) v)
  | TQual c v r a (TPtr _ _ u) =>
      to_decl u (DPtr ((if c then [QConst] else []) ++ (if v then [QVolatile] else []) ++ (if r then [QRestrict] else []) ++ (if a then [QAtomic] else [])) inner)
  | TQual _ _ _ _ _ => (t, inner)
  end.

Example C07_nonvacuous :
  (* three declarators over int: pointer to const pointer; array; function (array parameter, variadic) returning pointer to function *)
  let base := TBase 5 in
  let d1 := DPtr [QConst] (DPtr [] (DIdent 1)) in
  let d2 := DArr (DIdent 2) in
  let d3 := DFun (DParen (DPtr [] (DFun (DIdent 3) [(TBase 5, DArr (DIdent 4))] true))) [(TBase 0, DAbstract)] false in
  wf d3 /\
  run_declarators [base] [d1; d2; d3] =
    [Some (1, TPtr false false (TQual true false false false (TPtr false false base)));
     Some (2, TArr base);
     Some (3, TFun (TPtr false false (TFun base [TBase 0] false)) [TPtr true false base] true)].
Proof. split; [repeat constructor|vm_compute; reflexivity]. Qed.

Print Assumptions C07_declarator_type.
Print Assumptions C07_multi.
