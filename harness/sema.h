// shared helpers for semantic requests: parse + compile, canonical type printer, diagnostics printer
#ifndef PSYVERIF_SEMA_H
#define PSYVERIF_SEMA_H
#include "opts.h"
#include "C/syntax/SyntaxTree.h"
#include "C/syntax/SyntaxNodes.h"
#include "C/syntax/SyntaxVisitor.h"
#include "C/syntax/SyntaxToken.h"
#include "C/syntax/Lexeme_ALL.h"
#include "C/sema/Compilation.h"
#include "C/sema/SemanticModel.h"
#include "C/sema/TypeInfo.h"
#include "C/sema/Scope.h"
#include "C/symbols/Symbol_ALL.h"
#include "C/types/Type_ALL.h"
#include "C/parser/TextCompleteness.h"
#include "C/parser/TextPreprocessingState.h"
#include "handlers.h"

namespace pvh {
using namespace psy; using namespace psy::C;

inline std::string typestr(const Type* ty, int depth = 0)
{
    if (!ty) return "null";
    if (depth > 64) return "DEEP";
    switch (ty->kind()) {
        case TypeKind::Basic: return "B" + std::to_string((int)ty->asBasicType()->kind());
        case TypeKind::Void: return "V";
        case TypeKind::Error: return "E";
        case TypeKind::Pointer: {
            auto p = ty->asPointerType();
            return std::string("P") + (p->arisesFromArrayDecay() ? "a" : "") + (p->arisesFromFunctionDecay() ? "f" : "")
                 + "(" + typestr(p->referencedType(), depth + 1) + ")";
        }
        case TypeKind::Array: return "A(" + typestr(ty->asArrayType()->elementType(), depth + 1) + ")";
        case TypeKind::Function: {
            auto f = ty->asFunctionType();
            std::string s = "F(" + typestr(f->returnType(), depth + 1) + ";";
            bool first = true;
            for (auto p : f->parameterTypes()) { s += (first ? "" : ","); s += typestr(p, depth + 1); first = false; }
            s += f->isVariadic() ? ";..." : ";";
            s += std::to_string((int)f->parameterListForm());
            return s + ")";
        }
        case TypeKind::Qualified: {
            auto q = ty->asQualifiedType();
            std::string s = "Q";
            if (q->qualifiers().hasConst()) s += "c";
            if (q->qualifiers().hasVolatile()) s += "v";
            if (q->qualifiers().hasRestrict()) s += "r";
            if (q->qualifiers().hasAtomic()) s += "a";
            return s + "(" + typestr(q->unqualifiedType(), depth + 1) + ")";
        }
        case TypeKind::TypedefName: {
            auto t = ty->asTypedefNameType();
            return std::string("T:") + (t->typedefName() ? t->typedefName()->valueText() : "?");
        }
        case TypeKind::Tag: {
            auto t = ty->asTagType();
            return std::string("G") + std::to_string((int)t->kind()) + ":" + (t->tag() ? t->tag()->valueText() : "?");
        }
    }
    return "?";
}

struct Compiled {
    std::unique_ptr<Compilation> comp;
    const SyntaxTree* tree = nullptr;
    const SemanticModel* sema = nullptr;
};

inline std::unique_ptr<SyntaxTree> parse(const std::string& text, const ParseOptions& po,
                                         SyntaxTree::SyntaxCategory cat = SyntaxTree::SyntaxCategory::Any,
                                         TextCompleteness tc = TextCompleteness::Fragment)
{
    return SyntaxTree::parseText(SourceText(text), TextPreprocessingState::Preprocessed, tc, po, "", cat);
}

inline Compiled compile(std::unique_ptr<SyntaxTree> tree)
{
    Compiled c;
    c.comp = Compilation::create("verif");
    c.tree = tree.get();
    c.comp->addSyntaxTree(std::move(tree));
    c.comp->computeSemanticModel(c.tree);
    c.sema = c.comp->semanticModel(c.tree);
    return c;
}

inline std::string diagstr(const SyntaxTree* tree)
{
    std::string s;
    for (auto& d : tree->diagnostics()) {
        s += " D:" + d.descriptor().id() + ":" + std::to_string((int)d.severity());
    }
    return s;
}
}
#endif
