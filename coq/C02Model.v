(** C02 — the termination core of semantic analysis: typedef resolution over an ARBITRARY
    declaration graph.  Unlike C12's well-scoped environments, here a typedef's synonymized type
    may name any typedef at all, itself included (what incomplete or erroneous code produces:
    [typedef T T;], [typedef A B; typedef B A;]).  [resolve] follows
    TypedefNameTypeResolver::resolve with its set of typedef declarations under resolution;
    [resolve_unguarded] is the same function without that set. *)
From Coq Require Import List NArith Bool Arith.
From PV Require Import C12Model.
Import ListNotations.

Definition genv := list (N * ty).          (* name -> synonymized type; first entry for a name wins *)

Fixpoint glookup (e : genv) (n : N) : option ty :=
  match e with [] => None | (m, t) :: e' => if N.eqb n m then Some t else glookup e' n end.
Definition memb (n : N) (l : list N) : bool := existsb (N.eqb n) l.

Fixpoint resolve_g (fuel : nat) (e : genv) (vis : list N) (t : ty) : option ty :=
  match fuel with
  | O => None
  | S f =>
      match t with
      | TBasic _ | TVoid | TErr | TTag _ => Some t
      | TPtr u => option_map TPtr (resolve_g f e vis u)
      | TArr u => option_map TArr (resolve_g f e vis u)
      | TFun r ps =>
          match resolve_g f e vis r with
          | None => None
          | Some r' =>
              (fix go (l : list ty) : option ty :=
                 match l with
                 | [] => Some (TFun r' [])
                 | p :: l' => match resolve_g f e vis p, go l' with
                              | Some p', Some (TFun _ ps') => Some (TFun r' (p' :: ps'))
                              | _, _ => None
                              end
                 end) ps
          end
      | TQual q u => option_map (mkqual q) (resolve_g f e vis u)
      | TName n =>
          match glookup e n with
          | None => Some TErr
          | Some t' => if memb n vis then Some TErr            (* already under resolution: a cycle *)
                       else resolve_g f e (n :: vis) t'
          end
      end
  end.

Fixpoint resolve_unguarded (fuel : nat) (e : genv) (t : ty) : option ty :=
  match fuel with
  | O => None
  | S f =>
      match t with
      | TName n => match glookup e n with None => Some TErr | Some t' => resolve_unguarded f e t' end
      | TPtr u => option_map TPtr (resolve_unguarded f e u)
      | TQual q u => option_map (mkqual q) (resolve_unguarded f e u)
      | _ => Some t          (* the other cases do not matter for the divergence witness *)
      end
  end.

(** names of [e] not under resolution *)
Definition unv (e : genv) (vis : list N) : nat := length (filter (fun m => negb (memb m vis)) (map fst e)).
Fixpoint maxsize (e : genv) : nat := match e with [] => 0 | (_, t) :: e' => Nat.max (size t) (maxsize e') end.
Definition bound (e : genv) (t : ty) : nat := S (size t + length e * S (Nat.max (size t) (maxsize e))).
